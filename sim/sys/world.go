// Package sys assembles whole-system simulations: a bubble, the scheduler, the
// simulated network, deterministic entropy, real gortsplib servers and clients
// wired to the network through the library's own seams, logging handlers and
// the end-of-run census.
package sys

import (
	"context"
	"crypto/rand"
	"crypto/tls"
	"fmt"
	"io"
	"net"
	"sort"
	"os"
	"strings"
	"sync"
	"testing"
	"testing/cryptotest"
	"testing/synctest"
	"time"

	"github.com/google/uuid"

	gortsplib "github.com/bluenviron/gortsplib/v5"
	"github.com/bluenviron/gortsplib/v5/pkg/verifhook"

	"verifsim/core"
	"verifsim/simnet"
)

// detReader is the deterministic entropy source of a run.
type detReader struct {
	mu sync.Mutex
	s  uint64
}

func (r *detReader) Read(p []byte) (int, error) {
	r.mu.Lock()
	for i := 0; i < len(p); i += 8 {
		r.s += 0x9e3779b97f4a7c15
		v := core.Mix(r.s)
		for j := 0; j < 8 && i+j < len(p); j++ {
			p[i+j] = byte(v >> (8 * j))
		}
	}
	r.mu.Unlock()
	return len(p), nil
}

// World is one simulated run.
type World struct {
	T    *testing.T
	Seed uint64
	Log  *core.Log
	S    *core.Sched
	Net  *simnet.Net
	Res  *core.Result

	mu       sync.Mutex
	drivers  map[string]bool // name -> finished
	viol     *core.Violation
	rootGID  int
	finish   []func()
	SkipLeak bool
}

// Fail records the first violation of the run.
func (w *World) Fail(class, format string, args ...any) {
	w.mu.Lock()
	defer w.mu.Unlock()
	if w.viol == nil {
		w.viol = core.Viol(class, format, args...)
		w.Log.Add("oracle", "violation", "%s", class)
	}
}

// Failed reports whether a violation was recorded.
func (w *World) Failed() bool {
	w.mu.Lock()
	defer w.mu.Unlock()
	return w.viol != nil
}

// Probe bumps a reach probe.
func (w *World) Probe(name string) {
	w.mu.Lock()
	w.Res.Probes[name]++
	w.mu.Unlock()
}

// Fault counts a harness-level fault that fired (network faults are counted by simnet).
func (w *World) Fault(kind string) {
	w.mu.Lock()
	w.Res.Faults[kind]++
	w.mu.Unlock()
}

// ProbeAdd adds n to a reach probe.
func (w *World) ProbeAdd(name string, n int) {
	w.mu.Lock()
	w.Res.Probes[name] += n
	w.mu.Unlock()
}

// ProbeInit makes sure a probe appears in the evidence even at zero.
func (w *World) ProbeInit(names ...string) {
	w.mu.Lock()
	for _, n := range names {
		if _, ok := w.Res.Probes[n]; !ok {
			w.Res.Probes[n] = 0
		}
	}
	w.mu.Unlock()
}

// Go starts a driver goroutine. The run ends when all drivers have returned
// and the network has drained.
func (w *World) Go(name string, f func()) {
	w.mu.Lock()
	w.drivers[name] = false
	w.mu.Unlock()
	go func() {
		defer func() {
			if r := recover(); r != nil {
				w.Fail("panic", "driver %s panicked: %v\n%s", name, r, core.AllStacks())
			}
			w.mu.Lock()
			w.drivers[name] = true
			w.mu.Unlock()
			w.S.Ping()
		}()
		f()
	}()
}

// DriversDone reports whether every driver has returned.
func (w *World) DriversDone() bool {
	w.mu.Lock()
	defer w.mu.Unlock()
	for _, d := range w.drivers {
		if !d {
			return false
		}
	}
	return true
}

// Unfinished lists drivers still running.
func (w *World) Unfinished() []string {
	w.mu.Lock()
	defer w.mu.Unlock()
	var out []string
	for n, d := range w.drivers {
		if !d {
			out = append(out, n)
		}
	}
	sort.Strings(out)
	return out
}

// WaitDrivers blocks until the named drivers have returned.
func (w *World) WaitDrivers(names ...string) {
	for {
		w.mu.Lock()
		all := true
		for _, n := range names {
			if !w.drivers[n] {
				all = false
			}
		}
		w.mu.Unlock()
		if all {
			return
		}
		time.Sleep(997 * time.Microsecond)
	}
}

// Settle blocks until progress() has not changed for quiet, nothing is in
// flight on the network and the simulator has no decision pending (no
// goroutine parked at a yield site, no delivery scheduled): liveness is only
// judged once the simulator's own injected delays are over (DESIGN 2.4).
func (w *World) Settle(progress func() int, quiet time.Duration) {
	last := progress()
	for i := 0; i < 10000; i++ {
		time.Sleep(quiet)
		cur := progress()
		if cur == last && !w.Net.InFlight() && !w.S.Busy() {
			return
		}
		last = cur
	}
}

// Sleep sleeps on the fake clock.
func (w *World) Sleep(d time.Duration) { time.Sleep(d) }

// AtEnd registers a function run by the root goroutine after the scheduler
// loop has ended (oracles over the recorded history).
func (w *World) AtEnd(f func()) { w.finish = append(w.finish, f) }

// Options of a run.
type Options struct {
	Seed     uint64
	Net      simnet.Config
	MaxSteps int
	Horizon  time.Duration
	// ClockOffset is slept before anything starts so that runs visit
	// different absolute instants.
	ClockOffset time.Duration
	Yields      map[string]core.YieldSpec
	MaxHold     time.Duration
	// SimLocks: the library's mutexes are the simulation-aware ones for this run (waiters block
	// on channels), so that yield points inside critical sections can be used. A site name that
	// ends in ':' in Yields enables every automatic site with that prefix.
	SimLocks bool
}

// Run executes one whole-system simulation inside a bubble.
func Run(t *testing.T, o Options, body func(w *World)) *core.Result {
	res := core.NewResult()
	var w *World
	// crypto/tls, crypto/ecdsa ... draw from the runtime's own source, whatever rand.Reader is
	// (since Go 1.26): a signature that is a byte longer moves every later segment boundary of a
	// TLS connection. testing/cryptotest seeds that source for the process; re-seeded per run.
	cryptotest.SetGlobalRandom(t, o.Seed^0x5bd1e9955bd1e995)
	oldRand := rand.Reader
	pv, stack, dl := core.InBubble(t, func() {
		if o.ClockOffset > 0 {
			time.Sleep(o.ClockOffset)
		}
		ent := &detReader{s: core.Mix(o.Seed ^ 0xe7037ed1a0b428db)}
		rand.Reader = ent
		uuid.SetRand(ent)
		log := core.NewLog()
		s := core.NewSched(o.Seed, log)
		if o.MaxSteps > 0 {
			s.MaxSteps = o.MaxSteps
		}
		if o.Horizon > 0 {
			s.Horizon = o.Horizon
		}
		s.MaxHold = o.MaxHold
		cfg := o.Net
		if cfg.Seed == 0 {
			cfg.Seed = o.Seed
		}
		w = &World{T: t, Seed: o.Seed, Log: log, S: s, Res: res, drivers: map[string]bool{}, rootGID: core.GoID()}
		w.Net = simnet.New(cfg, s, log)
		if os.Getenv("VSIM_NETTRACE") != "" {
			// debugging aid: every socket write in the canonical log
			w.Net.AddTap(func(ev simnet.TapEvent) {
				log.Add("net:"+ev.Node+":"+ev.Sock, ev.Kind, "%s->%s len=%d", ev.From, ev.To, len(ev.Data))
			})
		}
		for site, spec := range o.Yields {
			s.EnableYield(site, spec)
		}
		verifhook.Yield = s.Yield
		verifhook.SimLocks = o.SimLocks
		verifhook.MapSeed = core.Mix(o.Seed ^ 0x6d61706f72646572) // iteration order of the library's maps (DESIGN 8.6)
		defer func() { verifhook.Yield = nil; verifhook.SimLocks = false }()

		body(w)

		err := s.Run(func() bool { core.Beat(); return w.DriversDone() })
		if err == core.ErrSteps {
			res.StepBudgetHit = true
		}
		if err != nil {
			w.Fail("hang", "scheduler stopped (%v) at sim t=%v after %d steps; drivers still running: %v\n%s",
				err, s.Now(), s.Steps, w.Unfinished(), core.Describe(core.BubbleOthers(w.rootGID, nil)))
		}
		s.ReleaseAllYields()
		synctest.Wait()
		for _, f := range w.finish {
			f()
		}
		res.SimNS = int64(s.Now())
		res.Steps = s.Steps
		// end-of-run census: nothing may be left in the bubble
		if !w.Failed() && !w.SkipLeak {
			synctest.Wait()
			if left := core.BubbleOthers(w.rootGID, nil); len(left) > 0 {
				// give timers that are already due a chance to fire
				time.Sleep(time.Millisecond)
				synctest.Wait()
				left = core.BubbleOthers(w.rootGID, nil)
				if len(left) > 0 {
					w.Fail("teardown/leak goroutine", "%d goroutines left in the bubble after every object was closed: %s", len(left), core.Describe(left))
				}
			}
		}
		for k, v := range w.Net.StatsCopy() {
			res.Faults[k] += v
		}
		for k, v := range s.YieldHits {
			res.YieldHits[k] += v
		}
		res.Sig = log.Sig()
		if w.viol != nil || core.FullLog {
			res.Tail = log.Tail(60)
		}
		if core.FullLog {
			res.FullLog = log.Canonical()
		}
	})
	rand.Reader = oldRand
	if pv != nil {
		res.Violation = core.PanicViolation(pv, stack)
		return res
	}
	if w != nil && w.viol != nil {
		res.Violation = w.viol
		return res
	}
	if dl != nil {
		res.Violation = core.Viol("teardown/leak goroutine", "bubble could not end: %v", dl)
	}
	return res
}

// ---- servers and clients on the simulated network ----------------------------------

// TapFunc observes plaintext bytes above TLS.
type TapFunc func(node, dir string, data []byte)

type tapConn struct {
	net.Conn
	node string
	tap  TapFunc
}

func (c *tapConn) Write(p []byte) (int, error) {
	c.tap(c.node, "write", p)
	return c.Conn.Write(p)
}

func (c *tapConn) Read(p []byte) (int, error) {
	n, err := c.Conn.Read(p)
	if n > 0 {
		c.tap(c.node, "read", p[:n])
	}
	return n, err
}

type tapListener struct {
	net.Listener
	node string
	tap  TapFunc
	cfg  *tls.Config
}

func (l *tapListener) Accept() (net.Conn, error) {
	c, err := l.Listener.Accept()
	if err != nil {
		return nil, err
	}
	var out net.Conn = c
	if l.cfg != nil {
		out = tls.Server(c, l.cfg)
	}
	if l.tap != nil {
		out = &tapConn{Conn: out, node: l.node, tap: l.tap}
	}
	return out, nil
}

// remoteAddrConn makes sure RemoteAddr is a *net.TCPAddr even through wrappers
// (tls.Conn forwards it already; kept for clarity).

// WireServer connects a server's seams to a node. tap (optional) sees the
// plaintext above TLS of every accepted connection.
func WireServer(s *gortsplib.Server, nd *simnet.Node, tap TapFunc) {
	s.Listen = func(network, address string) (net.Listener, error) {
		l, err := nd.Listen(network, address)
		if err != nil {
			return nil, err
		}
		if tap != nil && s.TLSConfig == nil {
			return &tapListener{Listener: l, node: nd.Name, tap: tap}, nil
		}
		return l, nil
	}
	s.ListenPacket = nd.ListenPacket
	if s.TLSConfig != nil {
		s.TLSListen = func(network, laddr string, config *tls.Config) (net.Listener, error) {
			l, err := nd.Listen(network, laddr)
			if err != nil {
				return nil, err
			}
			return &tapListener{Listener: l, node: nd.Name, tap: tap, cfg: config}, nil
		}
	}
}

// WireClient connects a client's seams to a node. The TLS seam handshakes
// eagerly (DESIGN 2.3).
func WireClient(c *gortsplib.Client, nd *simnet.Node, nt *simnet.Net, tap TapFunc) {
	c.DialContext = func(ctx context.Context, network, address string) (net.Conn, error) {
		conn, err := nd.DialContext(ctx, network, address)
		if err != nil {
			return nil, err
		}
		if tap != nil {
			return &tapConn{Conn: conn, node: nd.Name, tap: tap}, nil
		}
		return conn, nil
	}
	c.ListenPacket = nd.ListenPacket
	c.ResolveIPAddr = nt.ResolveIPAddr
	c.DialTLSContext = func(ctx context.Context, network, addr string) (net.Conn, error) {
		conn, err := nd.DialContext(ctx, network, addr)
		if err != nil {
			return nil, err
		}
		cfg := c.TLSConfig
		if cfg == nil {
			cfg = &tls.Config{}
		} else {
			cfg = cfg.Clone()
		}
		if cfg.ServerName == "" {
			host, _, _ := net.SplitHostPort(addr)
			cfg.ServerName = host
		}
		tc := tls.Client(conn, cfg)
		if err := tc.HandshakeContext(ctx); err != nil {
			conn.Close()
			return nil, err
		}
		if tap != nil {
			return &tapConn{Conn: tc, node: nd.Name, tap: tap}, nil
		}
		return tc, nil
	}
}

// ClientTLSConfig is what simulated clients use (as the repository's tests do).
func ClientTLSConfig() *tls.Config { return &tls.Config{InsecureSkipVerify: true} }

// ErrString renders an error or "<nil>".
func ErrString(err error) string {
	if err == nil {
		return "<nil>"
	}
	return err.Error()
}

var _ = io.EOF
var _ = fmt.Sprintf
var _ = strings.Contains
