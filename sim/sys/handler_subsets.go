package sys

import (
	gortsplib "github.com/bluenviron/gortsplib/v5"
	"github.com/bluenviron/gortsplib/v5/pkg/base"
)

// Handler subsets: applications implement only some of the ServerHandler*
// interfaces. Each type forwards to a full logging Handler but exposes only a
// subset of the methods (the lifecycle notifications are always kept because
// the oracles need them).

type lifecycle struct{ H *Handler }

func (l lifecycle) OnConnOpen(ctx *gortsplib.ServerHandlerOnConnOpenCtx)   { l.H.OnConnOpen(ctx) }
func (l lifecycle) OnConnClose(ctx *gortsplib.ServerHandlerOnConnCloseCtx) { l.H.OnConnClose(ctx) }
func (l lifecycle) OnSessionOpen(ctx *gortsplib.ServerHandlerOnSessionOpenCtx) {
	l.H.OnSessionOpen(ctx)
}
func (l lifecycle) OnSessionClose(ctx *gortsplib.ServerHandlerOnSessionCloseCtx) {
	l.H.OnSessionClose(ctx)
}
func (l lifecycle) OnStreamWriteError(ctx *gortsplib.ServerHandlerOnStreamWriteErrorCtx) {
	l.H.OnStreamWriteError(ctx)
}
func (l lifecycle) OnDecodeError(ctx *gortsplib.ServerHandlerOnDecodeErrorCtx) {
	l.H.OnDecodeError(ctx)
}
func (l lifecycle) OnPacketsLost(ctx *gortsplib.ServerHandlerOnPacketsLostCtx) {
	l.H.OnPacketsLost(ctx)
}

// PlayOnlyHandler serves readers only: Describe, Setup, Play, Pause.
type PlayOnlyHandler struct{ lifecycle }

func (h PlayOnlyHandler) OnDescribe(ctx *gortsplib.ServerHandlerOnDescribeCtx) (*base.Response, *gortsplib.ServerStream, error) {
	return h.H.OnDescribe(ctx)
}
func (h PlayOnlyHandler) OnSetup(ctx *gortsplib.ServerHandlerOnSetupCtx) (*base.Response, *gortsplib.ServerStream, error) {
	return h.H.OnSetup(ctx)
}
func (h PlayOnlyHandler) OnPlay(ctx *gortsplib.ServerHandlerOnPlayCtx) (*base.Response, error) {
	return h.H.OnPlay(ctx)
}
func (h PlayOnlyHandler) OnPause(ctx *gortsplib.ServerHandlerOnPauseCtx) (*base.Response, error) {
	return h.H.OnPause(ctx)
}

// RecordOnlyHandler serves publishers only: Announce, Setup, Record, Pause.
type RecordOnlyHandler struct{ lifecycle }

func (h RecordOnlyHandler) OnAnnounce(ctx *gortsplib.ServerHandlerOnAnnounceCtx) (*base.Response, error) {
	return h.H.OnAnnounce(ctx)
}
func (h RecordOnlyHandler) OnSetup(ctx *gortsplib.ServerHandlerOnSetupCtx) (*base.Response, *gortsplib.ServerStream, error) {
	return h.H.OnSetup(ctx)
}
func (h RecordOnlyHandler) OnRecord(ctx *gortsplib.ServerHandlerOnRecordCtx) (*base.Response, error) {
	return h.H.OnRecord(ctx)
}
func (h RecordOnlyHandler) OnPause(ctx *gortsplib.ServerHandlerOnPauseCtx) (*base.Response, error) {
	return h.H.OnPause(ctx)
}

// MinimalHandler implements Describe, Setup and Play only (no Pause, no
// parameters, no publishing).
type MinimalHandler struct{ lifecycle }

func (h MinimalHandler) OnDescribe(ctx *gortsplib.ServerHandlerOnDescribeCtx) (*base.Response, *gortsplib.ServerStream, error) {
	return h.H.OnDescribe(ctx)
}
func (h MinimalHandler) OnSetup(ctx *gortsplib.ServerHandlerOnSetupCtx) (*base.Response, *gortsplib.ServerStream, error) {
	return h.H.OnSetup(ctx)
}
func (h MinimalHandler) OnPlay(ctx *gortsplib.ServerHandlerOnPlayCtx) (*base.Response, error) {
	return h.H.OnPlay(ctx)
}

// NoParamsHandler is the full handler without GetParameter / SetParameter.
type NoParamsHandler struct{ lifecycle }

func (h NoParamsHandler) OnDescribe(ctx *gortsplib.ServerHandlerOnDescribeCtx) (*base.Response, *gortsplib.ServerStream, error) {
	return h.H.OnDescribe(ctx)
}
func (h NoParamsHandler) OnAnnounce(ctx *gortsplib.ServerHandlerOnAnnounceCtx) (*base.Response, error) {
	return h.H.OnAnnounce(ctx)
}
func (h NoParamsHandler) OnSetup(ctx *gortsplib.ServerHandlerOnSetupCtx) (*base.Response, *gortsplib.ServerStream, error) {
	return h.H.OnSetup(ctx)
}
func (h NoParamsHandler) OnPlay(ctx *gortsplib.ServerHandlerOnPlayCtx) (*base.Response, error) {
	return h.H.OnPlay(ctx)
}
func (h NoParamsHandler) OnRecord(ctx *gortsplib.ServerHandlerOnRecordCtx) (*base.Response, error) {
	return h.H.OnRecord(ctx)
}
func (h NoParamsHandler) OnPause(ctx *gortsplib.ServerHandlerOnPauseCtx) (*base.Response, error) {
	return h.H.OnPause(ctx)
}

// HandlerKinds lists the available handler types.
var HandlerKinds = []string{"full", "play-only", "record-only", "minimal", "no-params"}

// Implements reports which methods a handler kind implements.
func Implements(kind string) map[base.Method]bool {
	all := map[base.Method]bool{base.Describe: true, base.Announce: true, base.Setup: true, base.Play: true, base.Record: true,
		base.Pause: true, base.GetParameter: true, base.SetParameter: true}
	switch kind {
	case "play-only":
		return map[base.Method]bool{base.Describe: true, base.Setup: true, base.Play: true, base.Pause: true}
	case "record-only":
		return map[base.Method]bool{base.Announce: true, base.Setup: true, base.Record: true, base.Pause: true}
	case "minimal":
		return map[base.Method]bool{base.Describe: true, base.Setup: true, base.Play: true}
	case "no-params":
		delete(all, base.GetParameter)
		delete(all, base.SetParameter)
	}
	return all
}

// WrapHandler returns the handler value of the given kind around h.
func WrapHandler(kind string, h *Handler) gortsplib.ServerHandler {
	switch kind {
	case "play-only":
		return PlayOnlyHandler{lifecycle{h}}
	case "record-only":
		return RecordOnlyHandler{lifecycle{h}}
	case "minimal":
		return MinimalHandler{lifecycle{h}}
	case "no-params":
		return NoParamsHandler{lifecycle{h}}
	}
	return h
}
