package sys

import (
	"fmt"
	"sort"
	"strings"
	"sync"
	"time"

	"github.com/pion/rtcp"
	"github.com/pion/rtp"

	gortsplib "github.com/bluenviron/gortsplib/v5"
	"github.com/bluenviron/gortsplib/v5/pkg/base"
	"github.com/bluenviron/gortsplib/v5/pkg/description"
	"github.com/bluenviron/gortsplib/v5/pkg/format"
	"github.com/bluenviron/gortsplib/v5/pkg/liberrors"
)

// CB is one recorded handler callback.
type CB struct {
	G       uint64        // global sequence number
	T       time.Duration // simulated time since the start of the run
	Kind    string        // conn.open, conn.close, session.open, session.close, describe, announce, setup, play, record, pause, getparam, setparam, request, response, lost, decode_error, write_error, rtp, rtcp
	Conn    *gortsplib.ServerConn
	Session *gortsplib.ServerSession
	Path    string
	Query   string
	Err     error
	Info    string
}

// Handler is a full-featured, logging server handler. Callbacks the library
// invokes while holding its own locks only append to the log and never block.
type Handler struct {
	W      *World
	Server *gortsplib.Server

	mu      sync.Mutex
	Streams map[string]*gortsplib.ServerStream // by path
	CBs     []CB
	// Publish controls what happens on RECORD: forward packets of a publisher
	// into the stream created at ANNOUNCE.
	pubStreams map[*gortsplib.ServerSession]*gortsplib.ServerStream
	sessNames  map[*gortsplib.ServerSession]string
	connNames  map[*gortsplib.ServerConn]string

	// Optional overrides / hooks.
	Auth         func(conn *gortsplib.ServerConn, req *base.Request) bool
	OnRTP        func(ss *gortsplib.ServerSession, m *description.Media, f format.Format, pkt *rtp.Packet)
	OnRTCP       func(ss *gortsplib.ServerSession, m *description.Media, pkt rtcp.Packet)
	StatusFor    func(method base.Method, path string) base.StatusCode // 0 = default
	OnSetupExtra func(ctx *gortsplib.ServerHandlerOnSetupCtx)
	// PlayStatus, when set, decides the answer to a PLAY from the session it arrives for (0 = 200).
	PlayStatus func(ss *gortsplib.ServerSession) base.StatusCode
	// Hook, when set, runs inside every handler callback right after it was recorded (on the
	// library goroutine that invoked the callback).
	Hook func(cb CB)
	// WrapAuthErr: authentication failures are reported wrapped (fmt.Errorf("...: %w", ErrServerAuth{})).
	WrapAuthErr bool
	// NoForward: the handler does not write publishers' packets into the
	// stream itself (OnRTP does it).
	NoForward bool
}

// PubStream returns the stream created by a publisher's ANNOUNCE.
func (h *Handler) PubStream(ss *gortsplib.ServerSession) *gortsplib.ServerStream {
	h.mu.Lock()
	defer h.mu.Unlock()
	return h.pubStreams[ss]
}

// NewHandler creates a handler.
func NewHandler(w *World) *Handler {
	return &Handler{W: w, Streams: map[string]*gortsplib.ServerStream{}, pubStreams: map[*gortsplib.ServerSession]*gortsplib.ServerStream{}}
}

func (h *Handler) add(cb CB) {
	cb.G = h.W.Log.NextG()
	cb.T = time.Since(h.W.Log.Start())
	h.mu.Lock()
	h.CBs = append(h.CBs, cb)
	h.mu.Unlock()
	if h.Hook != nil {
		h.Hook(cb)
	}
}

// Callbacks returns a copy of the recorded callbacks.
func (h *Handler) Callbacks() []CB {
	h.mu.Lock()
	defer h.mu.Unlock()
	return append([]CB(nil), h.CBs...)
}

// SetStream publishes a stream under a path.
func (h *Handler) SetStream(path string, st *gortsplib.ServerStream) {
	h.mu.Lock()
	h.Streams[path] = st
	h.mu.Unlock()
}

func (h *Handler) stream(path string) *gortsplib.ServerStream {
	h.mu.Lock()
	defer h.mu.Unlock()
	return h.Streams[path]
}

func (h *Handler) status(m base.Method, path string) base.StatusCode {
	if h.StatusFor != nil {
		if c := h.StatusFor(m, path); c != 0 {
			return c
		}
	}
	return base.StatusOK
}

func (h *Handler) authFail(conn *gortsplib.ServerConn, req *base.Request) bool {
	return h.Auth != nil && !h.Auth(conn, req)
}

// OnConnOpen implements ServerHandlerOnConnOpen.
func (h *Handler) OnConnOpen(ctx *gortsplib.ServerHandlerOnConnOpenCtx) {
	h.add(CB{Kind: "conn.open", Conn: ctx.Conn})
	name := fmt.Sprintf("srv:%s:t%d", ctx.Conn.NetConn().RemoteAddr(), ctx.Conn.Transport().Tunnel)
	h.mu.Lock()
	if h.connNames == nil {
		h.connNames = map[*gortsplib.ServerConn]string{}
	}
	h.connNames[ctx.Conn] = name
	h.mu.Unlock()
	h.W.Log.Add(name, "conn.open", "")
}

// OnConnClose implements ServerHandlerOnConnClose.
func (h *Handler) OnConnClose(ctx *gortsplib.ServerHandlerOnConnCloseCtx) {
	h.add(CB{Kind: "conn.close", Conn: ctx.Conn, Err: ctx.Error})
	h.mu.Lock()
	name := h.connNames[ctx.Conn]
	h.mu.Unlock()
	h.W.Log.Add(name, "conn.close", "%s", CanonErr(ctx.Error))
}

// OnSessionOpen implements ServerHandlerOnSessionOpen.
func (h *Handler) OnSessionOpen(ctx *gortsplib.ServerHandlerOnSessionOpenCtx) {
	h.add(CB{Kind: "session.open", Conn: ctx.Conn, Session: ctx.Session})
	name := "srv:sess:" + ctx.Conn.NetConn().RemoteAddr().String()
	h.mu.Lock()
	if h.sessNames == nil {
		h.sessNames = map[*gortsplib.ServerSession]string{}
	}
	h.sessNames[ctx.Session] = name
	h.mu.Unlock()
	h.W.Log.Add(name, "session.open", "")
}

// OnSessionClose implements ServerHandlerOnSessionClose.
func (h *Handler) OnSessionClose(ctx *gortsplib.ServerHandlerOnSessionCloseCtx) {
	h.add(CB{Kind: "session.close", Session: ctx.Session, Err: ctx.Error})
	h.mu.Lock()
	name := h.sessNames[ctx.Session]
	h.mu.Unlock()
	h.W.Log.Add(name, "session.close", "%s", CanonErr(ctx.Error))
	h.mu.Lock()
	st := h.pubStreams[ctx.Session]
	delete(h.pubStreams, ctx.Session)
	if st != nil {
		for p, s := range h.Streams {
			if s == st {
				delete(h.Streams, p)
			}
		}
	}
	h.mu.Unlock()
	if st != nil {
		st.Close()
	}
}

// OnDescribe implements ServerHandlerOnDescribe.
func (h *Handler) OnDescribe(ctx *gortsplib.ServerHandlerOnDescribeCtx) (*base.Response, *gortsplib.ServerStream, error) {
	h.add(CB{Kind: "describe", Conn: ctx.Conn, Path: ctx.Path, Query: ctx.Query})
	if h.authFail(ctx.Conn, ctx.Request) {
		return &base.Response{StatusCode: base.StatusUnauthorized}, nil, h.errAuth()
	}
	if c := h.status(base.Describe, ctx.Path); c != base.StatusOK {
		return &base.Response{StatusCode: c}, nil, nil
	}
	st := h.stream(ctx.Path)
	if st == nil {
		return &base.Response{StatusCode: base.StatusNotFound}, nil, nil
	}
	return &base.Response{StatusCode: base.StatusOK}, st, nil
}

// OnAnnounce implements ServerHandlerOnAnnounce.
func (h *Handler) OnAnnounce(ctx *gortsplib.ServerHandlerOnAnnounceCtx) (*base.Response, error) {
	h.add(CB{Kind: "announce", Conn: ctx.Conn, Session: ctx.Session, Path: ctx.Path, Query: ctx.Query})
	if h.authFail(ctx.Conn, ctx.Request) {
		return &base.Response{StatusCode: base.StatusUnauthorized}, h.errAuth()
	}
	if c := h.status(base.Announce, ctx.Path); c != base.StatusOK {
		return &base.Response{StatusCode: c}, nil
	}
	st := &gortsplib.ServerStream{Server: h.Server, Desc: ctx.Description}
	if err := st.Initialize(); err != nil {
		return &base.Response{StatusCode: base.StatusBadRequest}, nil
	}
	h.mu.Lock()
	old := h.Streams[ctx.Path]
	h.Streams[ctx.Path] = st
	h.pubStreams[ctx.Session] = st
	h.mu.Unlock()
	if old != nil {
		old.Close()
	}
	return &base.Response{StatusCode: base.StatusOK}, nil
}

// OnSetup implements ServerHandlerOnSetup.
func (h *Handler) OnSetup(ctx *gortsplib.ServerHandlerOnSetupCtx) (*base.Response, *gortsplib.ServerStream, error) {
	h.add(CB{Kind: "setup", Conn: ctx.Conn, Session: ctx.Session, Path: ctx.Path, Query: ctx.Query,
		Info: fmt.Sprintf("%v", ctx.Transport.Protocol)})
	if h.OnSetupExtra != nil {
		h.OnSetupExtra(ctx)
	}
	if h.authFail(ctx.Conn, ctx.Request) {
		return &base.Response{StatusCode: base.StatusUnauthorized}, nil, h.errAuth()
	}
	if c := h.status(base.Setup, ctx.Path); c != base.StatusOK {
		return &base.Response{StatusCode: c}, nil, nil
	}
	if ctx.Session.State() == gortsplib.ServerSessionStatePreRecord {
		return &base.Response{StatusCode: base.StatusOK}, nil, nil
	}
	st := h.stream(ctx.Path)
	if st == nil {
		return &base.Response{StatusCode: base.StatusNotFound}, nil, nil
	}
	return &base.Response{StatusCode: base.StatusOK}, st, nil
}

// OnPlay implements ServerHandlerOnPlay.
func (h *Handler) OnPlay(ctx *gortsplib.ServerHandlerOnPlayCtx) (*base.Response, error) {
	h.add(CB{Kind: "play", Conn: ctx.Conn, Session: ctx.Session, Path: ctx.Path, Query: ctx.Query})
	if h.authFail(ctx.Conn, ctx.Request) {
		return &base.Response{StatusCode: base.StatusUnauthorized}, h.errAuth()
	}
	if c := h.status(base.Play, ctx.Path); c != base.StatusOK {
		return &base.Response{StatusCode: c}, nil
	}
	if h.PlayStatus != nil {
		if c := h.PlayStatus(ctx.Session); c != 0 && c != base.StatusOK {
			return &base.Response{StatusCode: c}, nil
		}
	}
	return &base.Response{StatusCode: base.StatusOK}, nil
}

// OnRecord implements ServerHandlerOnRecord.
func (h *Handler) OnRecord(ctx *gortsplib.ServerHandlerOnRecordCtx) (*base.Response, error) {
	h.add(CB{Kind: "record", Conn: ctx.Conn, Session: ctx.Session, Path: ctx.Path, Query: ctx.Query})
	if h.authFail(ctx.Conn, ctx.Request) {
		return &base.Response{StatusCode: base.StatusUnauthorized}, h.errAuth()
	}
	if c := h.status(base.Record, ctx.Path); c != base.StatusOK {
		return &base.Response{StatusCode: c}, nil
	}
	h.mu.Lock()
	st := h.pubStreams[ctx.Session]
	h.mu.Unlock()
	ss := ctx.Session
	ss.OnPacketRTPAny(func(m *description.Media, f format.Format, pkt *rtp.Packet) {
		if h.OnRTP != nil {
			h.OnRTP(ss, m, f, pkt)
		}
		if st != nil && !h.NoForward {
			st.WritePacketRTP(m, pkt) //nolint:errcheck
		}
	})
	ss.OnPacketRTCPAny(func(m *description.Media, pkt rtcp.Packet) {
		if h.OnRTCP != nil {
			h.OnRTCP(ss, m, pkt)
		}
	})
	return &base.Response{StatusCode: base.StatusOK}, nil
}

// OnPause implements ServerHandlerOnPause.
func (h *Handler) OnPause(ctx *gortsplib.ServerHandlerOnPauseCtx) (*base.Response, error) {
	h.add(CB{Kind: "pause", Conn: ctx.Conn, Session: ctx.Session, Path: ctx.Path, Query: ctx.Query})
	if c := h.status(base.Pause, ctx.Path); c != base.StatusOK {
		return &base.Response{StatusCode: c}, nil
	}
	return &base.Response{StatusCode: base.StatusOK}, nil
}

// OnGetParameter implements ServerHandlerOnGetParameter.
func (h *Handler) OnGetParameter(ctx *gortsplib.ServerHandlerOnGetParameterCtx) (*base.Response, error) {
	h.add(CB{Kind: "getparam", Conn: ctx.Conn, Session: ctx.Session, Path: ctx.Path, Query: ctx.Query})
	return &base.Response{StatusCode: base.StatusOK}, nil
}

// OnSetParameter implements ServerHandlerOnSetParameter.
func (h *Handler) OnSetParameter(ctx *gortsplib.ServerHandlerOnSetParameterCtx) (*base.Response, error) {
	h.add(CB{Kind: "setparam", Conn: ctx.Conn, Session: ctx.Session, Path: ctx.Path, Query: ctx.Query})
	return &base.Response{StatusCode: base.StatusOK}, nil
}

// OnPacketsLost implements ServerHandlerOnPacketsLost.
func (h *Handler) OnPacketsLost(ctx *gortsplib.ServerHandlerOnPacketsLostCtx) {
	h.add(CB{Kind: "lost", Session: ctx.Session, Info: fmt.Sprint(ctx.Lost)})
}

// OnDecodeError implements ServerHandlerOnDecodeError.
func (h *Handler) OnDecodeError(ctx *gortsplib.ServerHandlerOnDecodeErrorCtx) {
	h.add(CB{Kind: "decode_error", Session: ctx.Session, Err: ctx.Error})
}

// OnStreamWriteError implements ServerHandlerOnStreamWriteError.
func (h *Handler) OnStreamWriteError(ctx *gortsplib.ServerHandlerOnStreamWriteErrorCtx) {
	h.add(CB{Kind: "write_error", Session: ctx.Session, Err: ctx.Error})
}

// HadWriteError reports whether OnStreamWriteError fired for a session.
func (h *Handler) HadWriteError(ss *gortsplib.ServerSession) bool {
	h.mu.Lock()
	defer h.mu.Unlock()
	for _, cb := range h.CBs {
		if cb.Kind == "write_error" && (ss == nil || cb.Session == ss) {
			return true
		}
	}
	return false
}

// errAuth is how the application reports an authentication failure: the library's error value, bare
// or (WrapAuthErr) wrapped with %w, as an application that adds context does.
func (h *Handler) errAuth() error {
	if h.WrapAuthErr {
		return fmt.Errorf("authentication failed for this request: %w", liberrors.ErrServerAuth{})
	}
	return liberrors.ErrServerAuth{}
}

// CanonErr renders an error for the canonical log. The library's "must be in state [a b c]" errors
// list the allowed states in map order, which differs from run to run: the bracketed list is sorted.
func CanonErr(err error) string {
	if err == nil {
		return "<nil>"
	}
	t := err.Error()
	i := strings.Index(t, "must be in state [")
	if i < 0 {
		return t
	}
	i += len("must be in state [")
	j := strings.IndexByte(t[i:], ']')
	if j < 0 {
		return t
	}
	f := strings.Fields(t[i : i+j])
	sort.Strings(f)
	return t[:i] + strings.Join(f, " ") + t[i+j:]
}
