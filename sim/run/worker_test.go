package run

import (
	"testing"

	"verifsim/core"
	_ "verifsim/scen/c01"
	_ "verifsim/scen/c02"
	_ "verifsim/scen/c04"
	_ "verifsim/scen/c07"
	_ "verifsim/scen/c10"
	_ "verifsim/scen/c11"
	_ "verifsim/scen/c12"
	_ "verifsim/scen/c13"
	_ "verifsim/scen/c14"
	_ "verifsim/scen/c15"
	_ "verifsim/scen/c16"
	_ "verifsim/scen/c17"
	_ "verifsim/scen/c18"
	_ "verifsim/scen/c19"
	_ "verifsim/scen/c20"
)

// TestWorker is the worker entry point; it does nothing unless VSIM_MODE is set.
func TestWorker(t *testing.T) { core.WorkerMain(t) }
