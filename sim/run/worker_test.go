package run

import (
	"testing"

	"verifsim/core"
	_ "verifsim/scen/c01"
	_ "verifsim/scen/c16"
)

// TestWorker is the worker entry point; it does nothing unless VSIM_MODE is set.
func TestWorker(t *testing.T) { core.WorkerMain(t) }
