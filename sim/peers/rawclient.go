// Package peers holds scripted raw RTSP peers: harness code that speaks RTSP
// over simnet sockets, using the library's pkg/base only to encode and decode
// messages. They can pipeline, stop mid-message and go silent.
package peers

import (
	"bufio"
	"fmt"
	"net"
	"strconv"
	"time"

	"github.com/bluenviron/gortsplib/v5/pkg/base"
	"github.com/bluenviron/gortsplib/v5/pkg/conn"
)

// RawConn is a scripted control connection.
type RawConn struct {
	NC     net.Conn
	C      *conn.Conn
	CSeq   int
	Frames int // interleaved frames skipped while reading responses
	Closed bool
}

// NewRawConn wraps a connection.
func NewRawConn(nc net.Conn) *RawConn {
	return &RawConn{NC: nc, C: conn.NewConn(bufio.NewReader(nc), nc)}
}

// Send writes a request, assigning the next CSeq unless the request already has one.
func (r *RawConn) Send(req *base.Request) (string, error) {
	if req.Header == nil {
		req.Header = base.Header{}
	}
	cs := ""
	if v, ok := req.Header["CSeq"]; ok && len(v) == 1 {
		cs = v[0]
	} else {
		r.CSeq++
		cs = strconv.Itoa(r.CSeq)
		req.Header["CSeq"] = base.HeaderValue{cs}
	}
	r.NC.SetWriteDeadline(time.Now().Add(10 * time.Second))
	return cs, r.C.WriteRequest(req)
}

// WriteRaw writes arbitrary bytes.
func (r *RawConn) WriteRaw(b []byte) error {
	r.NC.SetWriteDeadline(time.Now().Add(10 * time.Second))
	_, err := r.NC.Write(b)
	return err
}

// ReadResponse reads the next response, skipping interleaved frames and
// server requests. It returns an error on EOF, reset or timeout.
func (r *RawConn) ReadResponse(timeout time.Duration) (*base.Response, error) {
	deadline := time.Now().Add(timeout)
	for {
		r.NC.SetReadDeadline(deadline)
		what, err := r.C.Read()
		if err != nil {
			return nil, err
		}
		switch v := what.(type) {
		case *base.Response:
			return v, nil
		case *base.InterleavedFrame:
			r.Frames++
		case *base.Request:
			// server-initiated request: ignore
		default:
			return nil, fmt.Errorf("unexpected element %T", what)
		}
	}
}

// Close closes the connection.
func (r *RawConn) Close() {
	if !r.Closed {
		r.Closed = true
		r.NC.Close()
	}
}
