package peers

import (
	"bytes"
	"fmt"
	"strings"

	"verifsim/core"
)

// Mutator derives grammar-level and byte-level mutations of an RTSP message
// from (seed, entity, index): every choice is hash-derived.
type Mutator struct {
	Seed uint64
	Ent  string
	// Fixed: values the caller pins instead of having them drawn (by name).
	Fixed map[string]string
	n     uint64
}

func (m *Mutator) next(kind string) uint64 {
	m.n++
	return core.HS(m.Seed, "mut:"+kind, m.Ent, m.n)
}

// Pick returns a value in [0,n).
func (m *Mutator) Pick(kind string, n int) int {
	if n <= 0 {
		return 0
	}
	return int(m.next(kind) % uint64(n))
}

// Chance returns true with probability p.
func (m *Mutator) Chance(kind string, p float64) bool {
	return core.Unit(m.next(kind)) < p
}

var extremes = []string{"0", "-1", "1", "65535", "65536", "4294967295", "4294967296", "99999999999999999999", "18446744073709551616", "", "0x10", "1e9", "٣"}

var longValues = []int{256, 2048, 4096, 8192, 70000}

// Kinds lists the mutation kinds (for fault counters).
var Kinds = []string{"none", "del_header", "dup_header", "long_value", "numeric_extreme", "bad_request_line", "bad_version",
	"content_length", "body_garbage", "byte_flip", "truncate", "insert_crlf", "nul_bytes", "header_no_colon", "huge_header_count", "splice"}

// Mutate returns a mutated copy of msg and the kind of mutation applied.
func (m *Mutator) Mutate(msg []byte) ([]byte, string) {
	kind := Kinds[m.Pick("kind", len(Kinds))]
	head, body := msg, []byte(nil)
	if i := bytes.Index(msg, []byte("\r\n\r\n")); i >= 0 {
		head, body = msg[:i], msg[i+4:]
	}
	lines := strings.Split(string(head), "\r\n")
	join := func() []byte {
		return append([]byte(strings.Join(lines, "\r\n")+"\r\n\r\n"), body...)
	}
	hdr := func() int { // index of a header line (not the request line)
		if len(lines) < 2 {
			return -1
		}
		return 1 + m.Pick("line", len(lines)-1)
	}
	switch kind {
	case "none":
		return msg, kind
	case "del_header":
		if i := hdr(); i > 0 {
			lines = append(lines[:i], lines[i+1:]...)
		}
		return join(), kind
	case "dup_header":
		if i := hdr(); i > 0 {
			n := 1 + m.Pick("dupn", 3)
			for k := 0; k < n; k++ {
				lines = append(lines, lines[i])
			}
		}
		return join(), kind
	case "long_value":
		if i := hdr(); i > 0 {
			n := longValues[m.Pick("len", len(longValues))]
			if c := strings.Index(lines[i], ":"); c >= 0 {
				if m.Chance("keyorval", 0.3) {
					lines[i] = strings.Repeat("K", n) + lines[i][c:]
				} else {
					lines[i] = lines[i][:c+1] + " " + strings.Repeat("v", n)
				}
			}
		} else {
			lines[0] = strings.Replace(lines[0], "rtsp://", "rtsp://"+strings.Repeat("h", 5000), 1)
		}
		return join(), kind
	case "numeric_extreme":
		// replace one run of digits somewhere in a header line
		i := hdr()
		if i < 0 {
			i = 0
		}
		l := lines[i]
		var runs [][2]int
		for a := 0; a < len(l); a++ {
			if l[a] >= '0' && l[a] <= '9' {
				b := a
				for b < len(l) && l[b] >= '0' && l[b] <= '9' {
					b++
				}
				runs = append(runs, [2]int{a, b})
				a = b
			}
		}
		if len(runs) > 0 {
			r := runs[m.Pick("run", len(runs))]
			lines[i] = l[:r[0]] + extremes[m.Pick("ext", len(extremes))] + l[r[1]:]
		}
		return join(), kind
	case "bad_request_line":
		variants := []string{"FOO rtsp://10.0.0.1:8554/stream RTSP/1.0", "PLAY", "PLAY  RTSP/1.0", "SETUP rtsp://[::1 RTSP/1.0", "DESCRIBE * RTSP/1.0",
			"DESCRIBE rtsp://10.0.0.1:8554/%zz RTSP/1.0", "OPTIONS rtsp://10.0.0.1:8554/stream?" + strings.Repeat("q", 3000) + " RTSP/1.0", "ANNOUNCE /relative RTSP/1.0",
			"RTSP/1.0 200 OK", strings.Repeat("A", 300) + " rtsp://10.0.0.1:8554/stream RTSP/1.0", "PLAY rtsp://10.0.0.1:8554/stream HTTP/1.1"}
		lines[0] = variants[m.Pick("rl", len(variants))]
		return join(), kind
	case "bad_version":
		lines[0] = strings.Replace(lines[0], "RTSP/1.0", []string{"RTSP/2.0", "RTSP/1", "RTSP/", "rtsp/1.0", "RTSP/1.0 extra"}[m.Pick("ver", 5)], 1)
		return join(), kind
	case "content_length":
		v := []string{"0", "1", fmt.Sprint(len(body) + 1), fmt.Sprint(len(body) + 100000), "200000", "4294967296", "-5", "abc"}[m.Pick("cl", 8)]
		found := false
		for i := range lines {
			if strings.HasPrefix(strings.ToLower(lines[i]), "content-length:") {
				lines[i] = "Content-Length: " + v
				found = true
			}
		}
		if !found {
			lines = append(lines, "Content-Length: "+v)
		}
		return join(), kind
	case "body_garbage":
		if len(body) == 0 {
			body = []byte("v=0\r\n")
		}
		b := append([]byte(nil), body...)
		switch m.Pick("bg", 5) {
		case 0:
			b = bytes.ReplaceAll(b, []byte("m="), []byte("m=\x00"))
		case 1:
			b = bytes.ReplaceAll(b, []byte("a=rtpmap:"), []byte("a=rtpmap:999999999999 "))
		case 2:
			b = bytes.Repeat([]byte("m=video 0 RTP/AVP 96\r\n"), 300)
		case 3:
			b = b[:len(b)/2]
		case 4:
			b = []byte("v=0\r\no=- 0 0 IN IP4 127.0.0.1\r\ns=x\r\nt=0 0\r\nm=video 0 RTP/AVP 96\r\na=control:rtsp://[::1\r\na=rtpmap:96 H264/0\r\na=fmtp:96 packetization-mode=1; sprop-parameter-sets=%%%\r\n")
		}
		body = b
		for i := range lines {
			if strings.HasPrefix(strings.ToLower(lines[i]), "content-length:") {
				lines[i] = "Content-Length: " + fmt.Sprint(len(body))
			}
		}
		return join(), kind
	case "byte_flip":
		out := append([]byte(nil), msg...)
		n := 1 + m.Pick("nflip", 4)
		for k := 0; k < n && len(out) > 0; k++ {
			out[m.Pick("pos", len(out))] ^= byte(1 + m.Pick("bit", 255))
		}
		return out, kind
	case "truncate":
		if len(msg) > 1 {
			return append([]byte(nil), msg[:1+m.Pick("cut", len(msg)-1)]...), kind
		}
		return msg, kind
	case "insert_crlf":
		out := append([]byte(nil), msg...)
		p := m.Pick("pos", len(out)+1)
		ins := [][]byte{[]byte("\r\n"), []byte("\n"), []byte("\r"), []byte("\r\n\r\n"), []byte(" \t")}[m.Pick("what", 5)]
		return append(out[:p:p], append(ins, msg[p:]...)...), kind
	case "nul_bytes":
		out := append([]byte(nil), msg...)
		for k := 0; k < 3 && len(out) > 0; k++ {
			out[m.Pick("pos", len(out))] = 0
		}
		return out, kind
	case "header_no_colon":
		lines = append(lines, "ThisLineHasNoColon", ": empty key", "Key only:")
		return join(), kind
	case "huge_header_count":
		for k := 0; k < 300; k++ {
			lines = append(lines, fmt.Sprintf("X-H%d: v", k))
		}
		return join(), kind
	case "splice":
		// two messages glued together at an arbitrary offset
		p := m.Pick("pos", len(msg)+1)
		return append(append([]byte(nil), msg[:p]...), msg...), kind
	}
	return msg, "none"
}

// Garbage returns n pseudo-random bytes.
func (m *Mutator) Garbage(n int) []byte {
	b := make([]byte, n)
	for i := range b {
		b[i] = byte(m.next("g"))
	}
	return b
}

// Frame builds an interleaved frame, possibly with an inconsistent length.
func (m *Mutator) Frame() []byte {
	ch := byte(m.Pick("ch", 256))
	if m.Chance("lowch", 0.5) {
		ch = byte(m.Pick("ch8", 8)) // the channels sessions really use (a back channel's included)
	}
	n := []int{0, 1, 12, 100, 1400, 1472, 1473, 4000, 65535, 13, 14, 20}[m.Pick("flen", 12)]
	payload := m.Garbage(n)
	if m.Chance("rtp", 0.5) && n >= 12 {
		payload[0] = 0x80
		payload[1] = 96
		// header fields that point beyond the packet: padding count, extension length, CSRC count
		switch m.Pick("rtpform", 6) {
		case 0:
			payload[0] |= 0x20
			payload[n-1] = byte(200 + m.Pick("pad", 56))
		case 1:
			payload[0] |= 0x20
			payload[n-1] = byte(n - 11)
		case 2:
			payload[0] |= 0x10
		case 3:
			payload[0] |= 0x0f
		case 4:
			payload[0] |= 0x20
			payload[n-1] = 0
		}
	}
	decl := n
	switch m.Pick("decl", 6) {
	case 0:
		decl = n + 1 + m.Pick("more", 100) // more than present: the reader waits for the rest
	case 1:
		if n > 0 {
			decl = m.Pick("less", n)
		}
	}
	if decl > 65535 {
		decl = 65535
	}
	return append([]byte{'$', ch, byte(decl >> 8), byte(decl)}, payload...)
}
