#!/bin/sh
# devmut.sh <patch.diff> [families]: dev build ($DEVDIR, default /tmp/vb) against a copy of /repo with the patch
# applied BEFORE instrumentation (as the checks do). Never touches /repo.
set -e
D=${DEVDIR:-/tmp/vb}; p="$(readlink -f "$1")"; shift
export GOFLAGS=-mod=mod GOPROXY=off GOSUMDB=off GOTOOLCHAIN=local
rm -rf $D/repo && mkdir -p $D/repo
(cd /repo && git ls-files | grep -v '_test.go$' | grep -v '^examples/' | tar -c -T - | tar -x -C $D/repo)
(cd $D/repo && git apply "$p")
/verif/bin/instrument -repo $D/repo -hooks /verif/hooks | tail -1
DEV_KEEP_REPO=1 DEV_ONLY="$*" /verif/dev.sh | tail -1
